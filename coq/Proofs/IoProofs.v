(* IoProofs.v — (I1) a read error is never taken for the end of input; (I2) writers with a byte
   budget; (I3) line/column bookkeeping of the contexts handed to the pipeline. *)
From Coq Require Import List NArith ZArith Bool Lia.
From Jawk Require Import Base F64 Json Reader JsonParser Stream Ctx Printer Expr Chain ExprParser Go.
From Jawk Require Import Render ReaderLemmas ParserProofs GoProofs.
Import ListNotations.
Local Open Scope N_scope.

#[local] Arguments N.add : simpl never.
#[local] Arguments N.mul : simpl never.
#[local] Arguments N.sub : simpl never.
#[local] Arguments N.eqb : simpl never.
#[local] Arguments N.ltb : simpl never.
#[local] Arguments N.leb : simpl never.
#[local] Arguments N.of_nat : simpl never.
#[local] Arguments N.to_nat : simpl never.

(* ================= (I2) writers with a byte budget ================= *)
Definition out_bytes (evs : list oev) : list byte :=
  flat_map (fun e => match e with OOut bs => bs | OErr _ => [] end) evs.
Definition err_bytes (evs : list oev) : list byte :=
  flat_map (fun e => match e with OErr bs => bs | OOut _ => [] end) evs.

Lemma apply_rooms_gen room : forall evs out err o e failed,
  apply_rooms evs out err (Some room) None = (o, e, failed) ->
  (exists more, out ++ out_bytes evs = o ++ more) /\
  (failed = false -> o = out ++ out_bytes evs /\ e = err ++ err_bytes evs) /\
  (failed = true -> (length out <= N.to_nat room)%nat ->
     length o = N.to_nat room /\ (N.to_nat room < length (out ++ out_bytes evs))%nat) /\
  ((length (out ++ out_bytes evs) <= N.to_nat room)%nat -> failed = false) /\
  ((length out <= N.to_nat room)%nat -> (length o <= N.to_nat room)%nat).
Proof.
  induction evs as [|[bs|bs] t IH]; intros out err o e failed H; cbn [apply_rooms] in H.
  - injection H as <- <- <-. cbn [out_bytes err_bytes flat_map]. rewrite !app_nil_r.
    split; [exists []; rewrite app_nil_r; reflexivity|].
    split; [auto|]. split; [discriminate|]. split; auto.
  - cbn [out_bytes flat_map]. fold (out_bytes t).
    destruct (N.leb_spec (N.of_nat (length out + length bs)) room) as [Hle|Hgt].
    + destruct (IH _ _ _ _ _ H) as (Ha & Hb & Hc & Hd & He). rewrite <- app_assoc in Ha, Hb, Hc, Hd.
      assert (Hl : (length (out ++ bs) <= N.to_nat room)%nat) by (rewrite app_length; lia).
      split; [exact Ha|]. split; [exact Hb|]. split; [intros Hf _; apply Hc; assumption|].
      split; [exact Hd|]. intros _. apply He. exact Hl.
    + injection H as <- <- <-.
      split.
      { exists (skipn (N.to_nat room - length out) bs ++ out_bytes t).
        rewrite <- app_assoc. f_equal. rewrite app_assoc, firstn_skipn. reflexivity. }
      split; [discriminate|]. split.
      { intros _ Hl. rewrite !app_length, firstn_length. lia. }
      split.
      { rewrite !app_length. lia. }
      intros Hl. rewrite app_length, firstn_length. lia.
  - cbn [out_bytes err_bytes flat_map]. fold (out_bytes t). fold (err_bytes t). cbn [app].
    destruct (IH _ _ _ _ _ H) as (Ha & Hb & Hc & Hd & He). rewrite <- app_assoc in Hb.
    split; [exact Ha|]. split; [exact Hb|]. split; [exact Hc|]. split; [exact Hd|exact He].
Qed.

Theorem apply_rooms_prefix evs room o e failed :
  apply_rooms evs [] [] (Some room) None = (o, e, failed) ->
  exists more, out_bytes evs = o ++ more.
Proof. intros H. apply (apply_rooms_gen room) in H. apply H. Qed.

Theorem apply_rooms_complete evs room o e failed :
  apply_rooms evs [] [] (Some room) None = (o, e, failed) ->
  failed = false -> o = out_bytes evs /\ e = err_bytes evs.
Proof. intros H. apply (apply_rooms_gen room) in H. apply H. Qed.

Theorem apply_rooms_failed evs room o e failed :
  apply_rooms evs [] [] (Some room) None = (o, e, failed) ->
  failed = true -> length o = N.to_nat room /\ (N.to_nat room < length (out_bytes evs))%nat.
Proof.
  intros H Hf. apply (apply_rooms_gen room) in H. destruct H as (_ & _ & Hc & _).
  apply Hc; [assumption|cbn; lia].
Qed.

Theorem apply_rooms_fits evs room o e failed :
  apply_rooms evs [] [] (Some room) None = (o, e, failed) ->
  (length (out_bytes evs) <= N.to_nat room)%nat -> failed = false.
Proof. intros H. apply (apply_rooms_gen room) in H. apply H. Qed.

Theorem apply_rooms_failed_iff evs room o e failed :
  apply_rooms evs [] [] (Some room) None = (o, e, failed) ->
  (failed = true <-> (N.to_nat room < length (out_bytes evs))%nat).
Proof.
  intros H. split.
  - intros Hf. apply (apply_rooms_failed _ _ _ _ _ H Hf).
  - intros Hlt. destruct failed; [reflexivity|].
    destruct (apply_rooms_complete _ _ _ _ _ H eq_refl) as [-> _].
    apply (apply_rooms_gen room) in H. destruct H as (_ & _ & _ & _ & He).
    cbn [length] in He. lia.
Qed.

Theorem run_with_rooms_result cf ins b oroom eroom :
  let g := go cf ins b in
  let '(o, e, failed) := apply_rooms (g_events g) [] [] oroom eroom in
  run_with_rooms cf ins b oroom eroom = (o, e, if failed then GErrIo else g_result g).
Proof.
  cbv zeta. unfold run_with_rooms.
  destruct (apply_rooms (g_events (go cf ins b)) [] [] oroom eroom) as [[o e] failed]. reflexivity.
Qed.

(* ================= (I3) locations ================= *)
Fixpoint loc_after (line col : N) (bs : list byte) : N * N :=
  match bs with
  | [] => (line, col)
  | b :: t => if b =? 10 then loc_after (line + 1) 1 t else loc_after line (col + 1) t
  end.

Lemma loc_after_app bs1 : forall line col bs2,
  loc_after line col (bs1 ++ bs2) =
  loc_after (fst (loc_after line col bs1)) (snd (loc_after line col bs1)) bs2.
Proof.
  induction bs1 as [|b t IH]; intros line col bs2; cbn [app loc_after fst snd]; [reflexivity|].
  destruct (b =? 10); apply IH.
Qed.

Lemma loc_line bs : forall line col,
  fst (loc_after line col bs) = line + N.of_nat (count_occ N.eq_dec bs 10).
Proof.
  induction bs as [|b t IH]; intros line col; cbn [loc_after count_occ fst].
  - cbn. lia.
  - destruct (N.eqb_spec b 10) as [->|Hne].
    + destruct (N.eq_dec 10 10) as [_|C]; [|congruence]. rewrite IH. lia.
    + destruct (N.eq_dec b 10) as [C|_]; [congruence|]. apply IH.
Qed.

Theorem line_counts_newlines bs :
  fst (loc_after 1 1 bs) = 1 + N.of_nat (count_occ N.eq_dec bs 10).
Proof. apply loc_line. Qed.

Definition loc_ok (all : list byte) (r : reader) : Prop :=
  where_am_i r = loc_after 1 1 (firstn (N.to_nat (pulled r)) all) /\
  rest r = map EB (skipn (N.to_nat (pulled r)) all) /\
  (N.to_nat (pulled r) <= length all)%nat.

Lemma loc_ok_init all : loc_ok all (mk_reader (map EB all)).
Proof. unfold loc_ok, mk_reader, where_am_i. cbn. repeat split. lia. Qed.

Lemma skipn_cons_firstn {A} (k : nat) : forall (l : list A) b t, skipn k l = b :: t ->
  firstn (S k) l = firstn k l ++ [b] /\ skipn (S k) l = t /\ (S k <= length l)%nat.
Proof.
  induction k as [|k IH]; intros l b t H.
  - cbn [skipn] in H. subst l. cbn. repeat split. lia.
  - destruct l as [|a l]; [discriminate|]. cbn [skipn] in H.
    destruct (IH l b t H) as (H1 & H2 & H3). cbn [firstn skipn length app] in *.
    rewrite H1 at 1. repeat split; auto. lia.
Qed.

Lemma loc_ok_step all r : loc_ok all r -> loc_ok all (step r).
Proof.
  unfold loc_ok, step, next, where_am_i. intros (Hw & Hr & Hl).
  destruct (eof r); cbn [snd]; [auto|].
  destruct (skipn (N.to_nat (pulled r)) all) as [|b t] eqn:Es; rewrite Hr; cbn [map snd line col pulled rest].
  - rewrite Es. auto.
  - destruct (skipn_cons_firstn _ _ _ _ Es) as (H1 & H2 & H3).
    replace (N.to_nat (pulled r + 1)) with (S (N.to_nat (pulled r))) by lia.
    rewrite H1, H2. split; [|auto].
    rewrite loc_after_app, <- Hw. cbn [fst snd loc_after].
    destruct (b =? 10); reflexivity.
Qed.

Lemma loc_ok_advances all r r' : advances r r' -> loc_ok all r -> loc_ok all r'.
Proof. apply (advances_inv (loc_ok all)). apply loc_ok_step. Qed.

Lemma pulled_step k r : (k <= N.to_nat (pulled r))%nat -> (k <= N.to_nat (pulled (step r)))%nat.
Proof.
  unfold step, next. intros H. destruct (eof r); cbn [snd]; [assumption|].
  destruct (rest r) as [|[b|] t]; cbn [snd pulled]; lia.
Qed.

Lemma pulled_advances r r' : advances r r' -> (N.to_nat (pulled r) <= N.to_nat (pulled r'))%nat.
Proof.
  intros H. apply (advances_inv (fun x => (N.to_nat (pulled r) <= N.to_nat (pulled x))%nat)) with (r := r); auto.
  intros x. apply pulled_step.
Qed.

(* --- the records of the contexts --- *)
(* indices: the i-th context is the (idx + i)-th of the run and the (infile + i)-th of its input *)
Fixpoint idx_ok (fname : option str) (idx infile : N) (cs : list ctx) : Prop :=
  match cs with
  | [] => True
  | c :: t => exists i, ic c = Some i /\ ic_index i = idx /\ ic_file_index i = infile /\
                        ic_file i = fname /\ idx_ok fname (idx + 1) (infile + 1) t
  end.

(* contiguity: each context starts where the previous one ended *)
Fixpoint chain_ok (start : N * N) (cs : list ctx) : Prop :=
  match cs with
  | [] => True
  | c :: t => exists i, ic c = Some i /\ ic_start i = start /\ chain_ok (ic_end i) t
  end.

Lemma read_ctxs_idx : forall fuel r fname idx infile,
  idx_ok fname idx infile (fst (fst (read_ctxs fuel false r fname idx infile))).
Proof.
  induction fuel as [|f IH]; intros r fname idx infile; cbn [read_ctxs]; [exact I|]. cbv zeta.
  destruct (next_json_value r) as [res r1]. destruct (io r1); [exact I|].
  destruct res as [v| | |]; try exact I; cbn [andb].
  - specialize (IH r1 fname (idx + 1) (infile + 1)).
    destruct (read_ctxs f false r1 fname (idx + 1) (infile + 1)) as [[cs e] b]. cbn [fst] in *.
    eexists. cbn [ic new_with_input]. split; [reflexivity|]. cbn [ic_index ic_file_index ic_file]. auto.
  - specialize (IH r1 fname idx infile).
    destruct (read_ctxs f false r1 fname idx infile) as [[cs e] b]. exact IH.
Qed.

Lemma read_ctxs_chain : forall fuel r fname idx infile,
  snd (fst (read_ctxs fuel false r fname idx infile)) = 0 ->
  chain_ok (where_am_i r) (fst (fst (read_ctxs fuel false r fname idx infile))).
Proof.
  induction fuel as [|f IH]; intros r fname idx infile; cbn [read_ctxs]; [intros _; exact I|]. cbv zeta.
  destruct (next_json_value r) as [res r1]. destruct (io r1); [intros _; exact I|].
  destruct res as [v| | |]; try (intros _; exact I); cbn [andb].
  - specialize (IH r1 fname (idx + 1) (infile + 1)).
    destruct (read_ctxs f false r1 fname (idx + 1) (infile + 1)) as [[cs e] b]. cbn [fst snd] in *.
    intros He. eexists. cbn [ic new_with_input]. split; [reflexivity|]. cbn [ic_start ic_end]. auto.
  - destruct (read_ctxs f false r1 fname idx infile) as [[cs e] b]. cbn [fst snd]. lia.
Qed.

(* a location is that of a prefix of the input *)
Definition span_ok (all : list byte) (c : ctx) : Prop :=
  exists i k1 k2, ic c = Some i /\ (k1 <= k2 <= length all)%nat /\
                  ic_start i = loc_after 1 1 (firstn k1 all) /\
                  ic_end i = loc_after 1 1 (firstn k2 all).

Lemma read_ctxs_spans all : forall fuel oo r fname idx infile, loc_ok all r ->
  Forall (span_ok all) (fst (fst (read_ctxs fuel oo r fname idx infile))).
Proof.
  induction fuel as [|f IH]; intros oo r fname idx infile Hl; cbn [read_ctxs]; [constructor|]. cbv zeta.
  pose proof (next_json_value_advances r) as Ha.
  destruct (next_json_value r) as [res r1]. cbn [snd] in Ha.
  pose proof (loc_ok_advances all r r1 Ha Hl) as Hl1.
  pose proof (pulled_advances r r1 Ha) as Hp.
  destruct (io r1); [constructor|].
  destruct res as [v| | |]; try constructor.
  - destruct (oo && negb (is_container v)); [apply IH; assumption|].
    specialize (IH oo r1 fname (idx + 1) (infile + 1) Hl1).
    destruct (read_ctxs f oo r1 fname (idx + 1) (infile + 1)) as [[cs e] b]. cbn [fst] in *.
    constructor; [|exact IH].
    destruct Hl as (Hw & _ & Hle). destruct Hl1 as (Hw1 & _ & Hle1).
    eexists _, (N.to_nat (pulled r)), (N.to_nat (pulled r1)).
    cbn [ic new_with_input]. split; [reflexivity|]. cbn [ic_start ic_end]. repeat split; auto; lia.
  - specialize (IH oo r1 fname idx infile Hl1).
    destruct (read_ctxs f oo r1 fname idx infile) as [[cs e] b]. exact IH.
Qed.

Lemma idx_nth fname : forall cs idx infile i c, idx_ok fname idx infile cs -> nth_error cs i = Some c ->
  exists ici, ic c = Some ici /\ ic_index ici = idx + N.of_nat i /\
              ic_file_index ici = infile + N.of_nat i /\ ic_file ici = fname.
Proof.
  induction cs as [|c0 t IH]; intros idx infile i c H Hn; [destruct i; discriminate|].
  cbn [idx_ok] in H. destruct H as (i0 & Hic & Hi & Hf & Hn0 & Ht).
  destruct i as [|i]; cbn [nth_error] in Hn.
  - injection Hn as <-. exists i0. repeat split; auto; lia.
  - destruct (IH _ _ _ _ Ht Hn) as (ici & H1 & H2 & H3 & H4). exists ici. repeat split; auto; lia.
Qed.

Lemma chain_nth : forall cs s i c1 c2, chain_ok s cs ->
  nth_error cs i = Some c1 -> nth_error cs (S i) = Some c2 ->
  exists i1 i2, ic c1 = Some i1 /\ ic c2 = Some i2 /\ ic_start i2 = ic_end i1.
Proof.
  induction cs as [|c0 t IH]; intros s i c1 c2 H H1 H2; [destruct i; discriminate|].
  cbn [chain_ok] in H. destruct H as (i0 & Hic & Hs & Ht).
  destruct i as [|i]; cbn [nth_error] in H1, H2.
  - injection H1 as <-. destruct t as [|c' t']; [discriminate|]. cbn [nth_error] in H2.
    injection H2 as <-. cbn [chain_ok] in Ht. destruct Ht as (i2 & Hic2 & Hs2 & _).
    exists i0, i2. auto.
  - apply (IH _ _ _ _ Ht H1 H2).
Qed.

(* the i-th context is number idx + i of the run and infile + i of its input *)
Theorem ctx_indices fuel r fname idx infile cs e b i c :
  read_ctxs fuel false r fname idx infile = (cs, e, b) -> nth_error cs i = Some c ->
  exists ici, ic c = Some ici /\ ic_index ici = idx + N.of_nat i /\
              ic_file_index ici = infile + N.of_nat i /\ ic_file ici = fname.
Proof.
  intros H. pose proof (read_ctxs_idx fuel r fname idx infile) as Hi. rewrite H in Hi.
  apply idx_nth. exact Hi.
Qed.

(* without recoverable errors, consecutive contexts are contiguous, the first one starts where the
   reader stands *)
Theorem ctx_contiguous fuel r fname idx infile cs b i c1 c2 :
  read_ctxs fuel false r fname idx infile = (cs, 0, b) ->
  nth_error cs i = Some c1 -> nth_error cs (S i) = Some c2 ->
  exists i1 i2, ic c1 = Some i1 /\ ic c2 = Some i2 /\ ic_start i2 = ic_end i1.
Proof.
  intros H. pose proof (read_ctxs_chain fuel r fname idx infile) as Hc. rewrite H in Hc.
  apply (chain_nth cs (where_am_i r)). apply Hc. reflexivity.
Qed.

Theorem ctx_first_start fuel r fname idx infile c cs b :
  read_ctxs fuel false r fname idx infile = (c :: cs, 0, b) ->
  exists i, ic c = Some i /\ ic_start i = where_am_i r.
Proof.
  intros H. pose proof (read_ctxs_chain fuel r fname idx infile) as Hc. rewrite H in Hc.
  destruct (Hc eq_refl) as (i & Hi & Hs & _). eauto.
Qed.

(* every start and end is the location after a prefix of the input; the line is one more than the
   number of newlines in that prefix *)
Theorem ctx_locations (all : list byte) fuel oo fname idx infile c :
  In c (fst (fst (read_ctxs fuel oo (mk_reader (map EB all)) fname idx infile))) ->
  exists i k1 k2, ic c = Some i /\ (k1 <= k2 <= length all)%nat /\
    ic_start i = loc_after 1 1 (firstn k1 all) /\
    ic_end i = loc_after 1 1 (firstn k2 all) /\
    fst (ic_end i) = 1 + N.of_nat (count_occ N.eq_dec (firstn k2 all) 10).
Proof.
  intros Hin.
  pose proof (read_ctxs_spans all fuel oo (mk_reader (map EB all)) fname idx infile (loc_ok_init all)) as H.
  rewrite Forall_forall in H. destruct (H c Hin) as (i & k1 & k2 & Hi & Hk & Hs & He).
  exists i, k1, k2. repeat split; auto; try lia. rewrite He. apply line_counts_newlines.
Qed.

(* ================= (I1) a read error is not the end of input ================= *)
(* the error event is still ahead, or it has been met and the io flag is set; at end of input
   nothing is pending *)
Definition err_ahead (r : reader) : Prop :=
  (eof r = true -> rest r = []) /\ (In EErr (rest r) \/ io r = true).

Lemma err_ahead_step r : err_ahead r -> err_ahead (step r).
Proof.
  unfold err_ahead, step, next. intros (He & Hi). destruct (eof r) eqn:E; cbn [snd]; [rewrite E; auto|].
  destruct (rest r) as [|[b|] t]; cbn [snd eof rest io].
  - split; [reflexivity|]. destruct Hi as [[]|Hi]; auto.
  - split; [discriminate|]. destruct Hi as [[C|Hi]|Hi]; [discriminate|auto|auto].
  - split; auto.
Qed.

Lemma err_ahead_advances r r' : advances r r' -> err_ahead r -> err_ahead r'.
Proof. apply (advances_inv err_ahead). apply err_ahead_step. Qed.

Lemma err_ahead_init pre rst : err_ahead (mk_reader (map EB pre ++ EErr :: rst)).
Proof.
  unfold err_ahead, mk_reader. cbn [eof rest io]. split; [discriminate|]. left.
  apply in_or_app. right. left. reflexivity.
Qed.

Theorem reached_err_ahead pre rst r : advances (mk_reader (map EB pre ++ EErr :: rst)) r ->
  In EErr (rest r) \/ io r = true.
Proof. intros H. apply (err_ahead_advances _ _ H (err_ahead_init pre rst)). Qed.

(* `next` answers None only at the true end of input or when it sets the io flag *)
Lemma next_none r : err_ahead r -> fst (next r) = None -> io (snd (next r)) = true.
Proof.
  unfold err_ahead, next. intros (He & Hi). destruct (eof r) eqn:E; cbn [fst snd].
  - intros _. destruct Hi as [Hi|Hi]; [|exact Hi]. rewrite (He eq_refl) in Hi. destruct Hi.
  - destruct (rest r) as [|[b|] t]; cbn [fst snd io]; try discriminate; auto.
    intros _. destruct Hi as [[]|Hi]; exact Hi.
Qed.

(* PEof is answered only at end of input *)
Lemma peek_none_eof r :
  match fst (peek r) with None => eof (snd (peek r)) = true | Some _ => True end.
Proof.
  unfold peek, next. destruct (cur r); cbn [fst]; [exact I|].
  destruct (eof r) eqn:E; cbn [fst snd]; [exact E|].
  destruct (rest r) as [|[b|] t]; cbn [fst snd eof]; auto.
Qed.

Definition eofok (x : pres * reader) : Prop := fst x = PEof -> eof (snd x) = true.

Lemma read_string_f_noeof fuel : forall acc r, fst (read_string_f fuel acc r) <> PEof.
Proof.
  induction fuel as [|f IH]; intros acc r; cbn [read_string_f]; [discriminate|].
  repeat first [apply IH | lazymatch goal with |- ?t <> PEof => let x := hs t in destruct x; fr_norm end];
    discriminate.
Qed.

Lemma read_string_noeof r : fst (read_string r) <> PEof.
Proof. apply read_string_f_noeof. Qed.

Lemma classify_noeof a b t : classify_number a b t <> PEof.
Proof.
  unfold classify_number, parse_to_double.
  repeat match goal with |- context [match ?x with _ => _ end] => destruct x end; discriminate.
Qed.

Lemma read_number_noeof r : fst (read_number r) <> PEof.
Proof.
  unfold read_number.
  repeat lazymatch goal with |- ?t <> PEof => let x := hs t in destruct x; fr_norm end;
    first [discriminate | apply classify_noeof].
Qed.

Ltac io_case :=
  lazymatch goal with
  | |- eofok (?a, ?b) => let x := hs a in destruct x; fr_norm
  | |- eofok ?t => let x := hs t in destruct x; fr_norm
  | |- ?t <> PEof => let x := hs t in destruct x; fr_norm
  end.

Ltac io_fact :=
  match goal with
  | |- context [peek ?r] => fr_pair (peek r) (peek_none_eof r)
  | |- context [read_string ?r] => fr_pair (read_string r) (read_string_noeof r)
  | |- context [read_number ?r] => fr_pair (read_number r) (read_number_noeof r)
  | IH : forall acc (r : reader), fst (parse_items ?f acc r) <> PEof |- context [parse_items ?f ?a ?r] =>
      fr_pair (parse_items f a r) (IH a r)
  | IH : forall acc (r : reader), fst (parse_members ?f acc r) <> PEof |- context [parse_members ?f ?a ?r] =>
      fr_pair (parse_members f a r) (IH a r)
  end.

Ltac io_done :=
  first [ discriminate
        | assumption
        | let HE := fresh in intro HE; cbn [fst snd] in *;
          first [discriminate HE | assumption | contradiction] ].

Lemma parse_eof : forall fuel,
  (forall r, eofok (parse_value fuel r)) /\
  (forall acc r, fst (parse_items fuel acc r) <> PEof) /\
  (forall acc r, fst (parse_members fuel acc r) <> PEof).
Proof.
  induction fuel as [|f (IHv & IHi & IHm)].
  - split; [|split]; intros; [intro H|..]; discriminate.
  - split; [|split].
    + intros r. rewrite parse_value_S. fr_norm. repeat first [io_fact | io_case]; io_done.
    + intros acc r. rewrite parse_items_S. fr_norm. repeat first [io_fact | io_case]; io_done.
    + intros acc r. rewrite parse_members_S. fr_norm. repeat first [io_fact | io_case]; io_done.
Qed.

Lemma next_json_value_eof r : fst (next_json_value r) = PEof -> eof (snd (next_json_value r)) = true.
Proof. apply (proj1 (parse_eof (parse_fuel r))). Qed.

Section ReadError.
Variables (cf : cfg) (p : printer) (sts : list stage) (nt : nat).
Hypothesis never_break : forall ss c, snd (Chain.process expr get sts ss c) = Continue.

Lemma read_input_err : forall fuel r fname ss idx infile, err_ahead r ->
  let e := snd (fst (read_input cf p sts nt fuel r fname ss idx infile)) in
  (e = Some GErrIo \/ e = Some GErrJson) /\ (c_on_error cf <> OnPanic -> e = Some GErrIo).
Proof.
  induction fuel as [|f IH]; intros r fname ss idx infile Hr; cbv zeta.
  - cbn. auto.
  - cbn [read_input]. cbv zeta.
    pose proof (next_json_value_advances r) as Ha.
    pose proof (next_json_value_eof r) as Heof.
    destruct (next_json_value r) as [res r1]. cbn [fst snd] in Ha, Heof.
    pose proof (err_ahead_advances r r1 Ha Hr) as Hr1.
    destruct (io r1) eqn:Hio; [cbn; auto|].
    destruct res as [v| | |].
    + destruct (c_only_objs cf && negb (is_container v)); [apply IH; assumption|].
      match goal with |- context [process expr get sts ss ?c] =>
        pose proof (never_break ss c) as Hd; destruct (process expr get sts ss c) as [[ss1 o] d] end.
      cbn [snd] in Hd. subst d.
      specialize (IH r1 fname ss1 (idx + 1) (infile + 1) Hr1). cbv zeta in IH.
      destruct (read_input cf p sts nt f r1 fname ss1 (idx + 1) (infile + 1)) as [[[[ss2 o2] idx2] e2] r2].
      cbn [fst snd] in *. exact IH.
    + exfalso. specialize (Heof eq_refl). destruct Hr1 as (He & Hi). rewrite (He Heof) in Hi.
      destruct Hi as [[]|Hi]. congruence.
    + destruct (c_on_error cf) eqn:Epol;
        try (specialize (IH r1 fname ss idx infile Hr1); cbv zeta in IH;
             destruct (read_input cf p sts nt f r1 fname ss idx infile) as [[[[ss2 o2] idx2] e2] r2];
             cbn [fst snd] in *; exact IH).
      cbn [fst snd]. split; [auto|]. intros C. congruence.
    + cbn. auto.
Qed.
End ReadError.

Theorem read_error_not_eof : forall cf p sts nt fname pre rst ss idx infile,
  (forall ss c, snd (Chain.process expr get sts ss c) = Continue) ->
  let evs := map EB pre ++ EErr :: rst in
  let '(_, _, _, e, _) := read_input cf p sts nt (input_fuel evs) (mk_reader evs) fname ss idx infile in
  e <> None /\ (c_on_error cf <> OnPanic -> e = Some GErrIo).
Proof.
  intros cf p sts nt fname pre rst ss idx infile Hnb evs.
  pose proof (read_input_err cf p sts nt Hnb (input_fuel evs) (mk_reader evs) fname ss idx infile
                (err_ahead_init pre rst)) as H. cbv zeta in H.
  destruct (read_input cf p sts nt (input_fuel evs) (mk_reader evs) fname ss idx infile)
    as [[[[ss2 o2] idx2] e2] r2]. cbn [fst snd] in H. destruct H as [[H|H] H2]; split; auto; congruence.
Qed.

Theorem go_read_error : forall cf fname pre rst b p sts hdr,
  build_pipeline cf = Some (p, sts) ->
  start_output p (titles expr sts []) (c_rowsep cf) = Some hdr ->
  (forall ss c, snd (Chain.process expr get sts ss c) = Continue) ->
  let evs := map EB pre ++ EErr :: rst in
  g_result (go cf [(fname, evs)] b) <> GOk /\
  (c_on_error cf <> OnPanic -> g_result (go cf [(fname, evs)] b) = GErrIo).
Proof.
  intros cf fname pre rst b p sts hdr Hbp Hst Hnb evs.
  unfold go. rewrite Hbp. cbv zeta. rewrite Hst. cbn [read_files].
  pose proof (read_input_err cf p sts (length (titles expr sts [])) Hnb (input_fuel evs) (mk_reader evs)
                fname (map (init_state expr) sts) 0 0 (err_ahead_init pre rst)) as H. cbv zeta in H.
  destruct (read_input cf p sts (length (titles expr sts [])) (input_fuel evs) (mk_reader evs) fname
              (map (init_state expr) sts) 0 0) as [[[[ss2 o2] idx2] e2] r2].
  cbn [fst snd] in H. destruct H as [[H|H] H2].
  - subst e2. cbn [g_result]. split; [discriminate|reflexivity].
  - subst e2. cbn [g_result]. split; [discriminate|]. intros C. specialize (H2 C). discriminate.
Qed.

Print Assumptions read_error_not_eof.
Print Assumptions go_read_error.
Print Assumptions apply_rooms_failed_iff.
Print Assumptions run_with_rooms_result.
Print Assumptions ctx_indices.
Print Assumptions ctx_contiguous.
Print Assumptions ctx_locations.
