(* ProgramFilesProofs.v — the whole-program theorems of ProgramProofs.v (program_limit, program_slice,
   program_collect, program_group_by, program_merge, program_slice_collect) for ANY list of inputs instead of
   one input: the same statements with [(fname, evs)] replaced by `ins` and the contexts of the one input
   replaced by the contexts of all inputs, `fst (ctxs_of_inputs cf ins 0)`.  Same scripts, with C03_program
   replaced by C03_program_files; the only new fact is that ctxs_of_inputs reads nothing of the
   configuration but c_only_objs. *)
From Jawk Require Import Base F64 Json Reader JsonParser Ctx Printer Fn Expr Chain ExprParser Go PipelineSpec.
From Jawk Require Import OrderProofs SorterProofs ChainProofs GroupUniqProofs GoProofs BuildProofs.
From Jawk Require Import ProgramProofs FilesProofs FilesTakeProofs C03.
Local Open Scope N_scope.

Local Notation stage := (Chain.stage expr).
Local Notation ectx := (Ctx.ctx expr).
Local Notation uncapE := (ChainProofs.uncap expr).
Local Notation wfpE := (ChainProofs.wfp expr).

(* ====================================================================================================== *)
(* the contexts of the inputs depend on the configuration only through c_only_objs                        *)
(* ====================================================================================================== *)
Lemma ctxs_of_inputs_only_objs (c1 c2 : cfg) (ins : list (option str * list ev)) (idx : N) :
  c_only_objs c1 = c_only_objs c2 -> ctxs_of_inputs c1 ins idx = ctxs_of_inputs c2 ins idx.
Proof.
  intros Ho. revert idx. induction ins as [|[fname evs] t IH]; intros idx; [reflexivity|].
  cbn [ctxs_of_inputs]. rewrite Ho.
  destruct (read_ctxs (input_fuel evs) (c_only_objs c2) (mk_reader evs) fname idx 0) as [[cs e] b0].
  rewrite IH. reflexivity.
Qed.

Lemma ctxs_of_inputs_with_limit c s t ins idx :
  ctxs_of_inputs (with_limit c s t) ins idx = ctxs_of_inputs c ins idx.
Proof. apply ctxs_of_inputs_only_objs. reflexivity. Qed.
Lemma ctxs_of_inputs_no_limit c ins idx : ctxs_of_inputs (no_limit c) ins idx = ctxs_of_inputs c ins idx.
Proof. apply ctxs_of_inputs_only_objs. reflexivity. Qed.
Lemma ctxs_of_inputs_with_group c g ins idx :
  ctxs_of_inputs (with_group c g) ins idx = ctxs_of_inputs c ins idx.
Proof. apply ctxs_of_inputs_only_objs. reflexivity. Qed.
Lemma ctxs_of_inputs_no_group c ins idx : ctxs_of_inputs (no_group c) ins idx = ctxs_of_inputs c ins idx.
Proof. apply ctxs_of_inputs_only_objs. reflexivity. Qed.

(* ====================================================================================================== *)
(* P1 — C08 for the whole program, any list of inputs: `go cf` against `go (no_limit cf)`                 *)
(* ====================================================================================================== *)
Theorem program_limit_files : forall (cf : cfg) (ins : list (option str * list ev)) (b : bool) p sts hdr,
  c_on_error cf = OnIgnore -> Forall (fun i => Forall (fun e => e <> EErr) (snd i)) ins ->
  build_pipeline cf = Some (p, sts) ->
  start_output p (titles expr sts []) (c_rowsep cf) = Some hdr ->
  (forall t, c_take cf = Some t -> c_skip cf + t <= 18446744073709551615) ->
  exists pre0 post,
    build_pipeline (no_limit cf) = Some (p, pre0 ++ post) /\
    start_output p (titles expr (pre0 ++ post) []) (c_rowsep (no_limit cf)) = Some hdr /\
    titles expr (pre0 ++ post) [] = titles expr sts [] /\
    build_kind cf KGroup = Some post /\
    let cs := fst (ctxs_of_inputs cf ins 0) in
    let nt := length (titles expr sts []) in
    let rows0 := spec expr get pre0 cs in
    spec expr get sts cs = spec expr get post (slice (c_skip cf) (c_take cf) rows0) /\
    g_result (go (no_limit cf) ins b) = GOk /\
    g_events (go (no_limit cf) ins b) = hdr_events hdr ++ emit cf p nt (spec expr get post rows0) /\
    g_result (go cf ins b) = GOk /\
    g_events (go cf ins b) =
      hdr_events hdr ++ emit cf p nt (spec expr get post (slice (c_skip cf) (c_take cf) rows0)).
Proof.
  intros cf ins b p sts hdr Hign Hevs Hbp Hst Hov.
  destruct (build_limit_decomp cf p sts Hbp) as (pre & post & Hsts & Hg & Hbp0).
  assert (Ht : titles expr (map uncapE pre ++ post) [] = titles expr sts []).
  { rewrite Hsts. apply titles_no_limit. }
  assert (Hst0 : start_output p (titles expr (map uncapE pre ++ post) []) (c_rowsep (no_limit cf)) = Some hdr).
  { rewrite Ht. exact Hst. }
  exists (map uncapE pre), post.
  split; [exact Hbp0|]. split; [exact Hst0|]. split; [exact Ht|]. split; [exact Hg|].
  intros cs nt rows0. subst rows0 nt cs.
  assert (Hspec : forall cs, spec expr get sts cs =
                    spec expr get post (slice (c_skip cf) (c_take cf) (spec expr get (map uncapE pre) cs))).
  { intros cs. rewrite Hsts. apply spec_around_limit. }
  destruct (C03_program_files cf ins b p sts hdr Hign Hevs Hbp Hst Hov) as [R E].
  assert (Hov0 : forall t, c_take (no_limit cf) = Some t ->
                           c_skip (no_limit cf) + t <= 18446744073709551615) by (intros t Ht0; discriminate Ht0).
  destruct (C03_program_files (no_limit cf) ins b p (map uncapE pre ++ post) hdr Hign Hevs Hbp0 Hst0 Hov0)
    as [R0 E0].
  split; [apply Hspec|]. split; [exact R0|]. split; [|split; [exact R|]].
  - rewrite E0, Ht. rewrite (ctxs_of_inputs_no_limit cf ins 0).
    rewrite spec_app. reflexivity.
  - rewrite E, Hspec. reflexivity.
Qed.

Theorem program_slice_files : forall (cf : cfg) (ins : list (option str * list ev)) (b : bool) p sts hdr,
  c_on_error cf = OnIgnore -> Forall (fun i => Forall (fun e => e <> EErr) (snd i)) ins ->
  build_pipeline cf = Some (p, sts) ->
  start_output p (titles expr sts []) (c_rowsep cf) = Some hdr ->
  (forall t, c_take cf = Some t -> c_skip cf + t <= 18446744073709551615) ->
  c_group cf = None ->
  exists sts0,
    build_pipeline (no_limit cf) = Some (p, sts0) /\
    start_output p (titles expr sts0 []) (c_rowsep (no_limit cf)) = Some hdr /\
    let cs := fst (ctxs_of_inputs cf ins 0) in
    let nt := length (titles expr sts []) in
    let rows0 := spec expr get sts0 cs in
    spec expr get sts cs = slice (c_skip cf) (c_take cf) rows0 /\
    g_result (go (no_limit cf) ins b) = GOk /\
    g_events (go (no_limit cf) ins b) = hdr_events hdr ++ emit cf p nt rows0 /\
    g_result (go cf ins b) = GOk /\
    g_events (go cf ins b) = hdr_events hdr ++ slice (c_skip cf) (c_take cf) (emit cf p nt rows0).
Proof.
  intros cf ins b p sts hdr Hign Hevs Hbp Hst Hov Hng.
  destruct (program_limit_files cf ins b p sts hdr Hign Hevs Hbp Hst Hov)
    as (pre0 & post & Hbp0 & Hst0 & _ & Hg & H).
  cbn [build_kind] in Hg. rewrite Hng in Hg. inversion Hg; subst post. rewrite app_nil_r in *.
  exists pre0. split; [exact Hbp0|]. split; [exact Hst0|].
  intros cs nt rows0. cbv zeta in H. cbn [spec] in H.
  destruct H as (H1 & H2 & H3 & H4 & H5).
  split; [exact H1|]. split; [exact H2|]. split; [exact H3|]. split; [exact H4|].
  rewrite H5. rewrite emit_slice. reflexivity.
Qed.

(* ====================================================================================================== *)
(* P2 — C09 for the whole program, any list of inputs: `go cf` against `go (no_group cf)`                 *)
(* ====================================================================================================== *)
Theorem program_collect_files : forall (cf : cfg) g (ins : list (option str * list ev)) (b : bool) p sts hdr,
  c_group cf = Some g ->
  c_on_error cf = OnIgnore -> Forall (fun i => Forall (fun e => e <> EErr) (snd i)) ins ->
  build_pipeline cf = Some (p, sts) ->
  start_output p (titles expr sts []) (c_rowsep cf) = Some hdr ->
  (forall t, c_take cf = Some t -> c_skip cf + t <= 18446744073709551615) ->
  exists pre o,
    group_key g = Some o /\ sts = pre ++ [collector_stage o] /\ hdr = [] /\
    build_pipeline (no_group cf) = Some (p, pre) /\
    start_output p (titles expr pre []) (c_rowsep (no_group cf)) = Some [] /\
    let cs := fst (ctxs_of_inputs cf ins 0) in
    let rows := spec expr get pre cs in
    g_result (go (no_group cf) ins b) = GOk /\
    g_events (go (no_group cf) ins b) = emit cf p (length (titles expr pre [])) rows /\
    g_result (go cf ins b) = GOk /\
    g_events (go cf ins b) =
      [OOut (print_row p 0 (c_rowsep cf) (new_with_no_context (collection o rows)))].
Proof.
  intros cf g ins b p sts hdr Hgr Hign Hevs Hbp Hst Hov.
  destruct (build_group_decomp cf g p sts Hgr Hbp) as (pre & o & Ho & Hsts & Hbpu).
  assert (Ht : titles expr sts [] = []).
  { rewrite Hsts. apply titles_collector. destruct o; exact I. }
  rewrite Ht in Hst. destruct (start_no_titles p _ hdr Hst) as [Hh Hany].
  exists pre, o. split; [exact Ho|]. split; [exact Hsts|]. split; [exact Hh|]. split; [exact Hbpu|].
  split; [apply Hany|]. intros cs rows.
  assert (Hst' : start_output p (titles expr sts []) (c_rowsep cf) = Some hdr) by (rewrite Ht; exact Hst).
  destruct (C03_program_files cf ins b p sts hdr Hign Hevs Hbp Hst' Hov) as [R E].
  destruct (C03_program_files (no_group cf) ins b p pre [] Hign Hevs Hbpu (Hany _ _) Hov) as [Ru Eu].
  rewrite (ctxs_of_inputs_no_group cf ins 0) in Eu.
  split; [exact Ru|]. split; [exact Eu|]. split; [exact R|].
  rewrite E, Ht, Hh. fold cs.
  assert (W1 : wfpE sts) by exact (build_wfp cf p sts Hbp Hov).
  assert (W2 : wfpE pre) by exact (build_wfp (no_group cf) p pre Hbpu Hov).
  rewrite Hsts in W1 |- *. rewrite (spec_one_collection pre o cs W1 W2). reflexivity.
Qed.

Theorem program_group_by_files : forall (cf : cfg) k (ins : list (option str * list ev)) (b : bool) p sts hdr,
  c_group cf = Some (Some k) ->
  c_on_error cf = OnIgnore -> Forall (fun i => Forall (fun e => e <> EErr) (snd i)) ins ->
  build_pipeline cf = Some (p, sts) ->
  start_output p (titles expr sts []) (c_rowsep cf) = Some hdr ->
  (forall t, c_take cf = Some t -> c_skip cf + t <= 18446744073709551615) ->
  exists pre e,
    parse_whole k = Some e /\
    build_pipeline (no_group cf) = Some (p, pre) /\
    start_output p (titles expr pre []) (c_rowsep (no_group cf)) = Some [] /\
    let cs := fst (ctxs_of_inputs cf ins 0) in
    let rows := spec expr get pre cs in
    g_result (go (no_group cf) ins b) = GOk /\
    g_events (go (no_group cf) ins b) = emit cf p (length (titles expr pre [])) rows /\
    g_result (go cf ins b) = GOk /\
    g_events (go cf ins b) =
      [OOut (print_row p 0 (c_rowsep cf) (new_with_no_context (group_spec expr get e rows)))] /\
    (rows = [] -> g_events (go cf ins b) =
                  [OOut (print_row p 0 (c_rowsep cf) (new_with_no_context (JObj [])))]).
Proof.
  intros cf k ins b p sts hdr Hgr Hign Hevs Hbp Hst Hov.
  destruct (program_collect_files cf (Some k) ins b p sts hdr Hgr Hign Hevs Hbp Hst Hov)
    as (pre & o & Ho & _ & _ & Hbpu & Hstu & H).
  cbn [group_key] in Ho. destruct (parse_whole k) as [e|] eqn:Ek; [|discriminate Ho].
  inversion Ho; subst o. exists pre, e. split; [reflexivity|]. split; [exact Hbpu|]. split; [exact Hstu|].
  intros cs rows. cbv zeta in H. cbn [collection] in H. destruct H as (H1 & H2 & H3 & H4).
  split; [exact H1|]. split; [exact H2|]. split; [exact H3|]. split; [exact H4|].
  intros Hr. rewrite H4. fold cs. fold rows. rewrite Hr, (group_empty expr get e). reflexivity.
Qed.

Theorem program_merge_files : forall (cf : cfg) (ins : list (option str * list ev)) (b : bool) p sts hdr,
  c_group cf = Some None ->
  c_on_error cf = OnIgnore -> Forall (fun i => Forall (fun e => e <> EErr) (snd i)) ins ->
  build_pipeline cf = Some (p, sts) ->
  start_output p (titles expr sts []) (c_rowsep cf) = Some hdr ->
  (forall t, c_take cf = Some t -> c_skip cf + t <= 18446744073709551615) ->
  exists pre,
    build_pipeline (no_group cf) = Some (p, pre) /\
    start_output p (titles expr pre []) (c_rowsep (no_group cf)) = Some [] /\
    let cs := fst (ctxs_of_inputs cf ins 0) in
    let rows := spec expr get pre cs in
    g_result (go (no_group cf) ins b) = GOk /\
    g_events (go (no_group cf) ins b) = emit cf p (length (titles expr pre [])) rows /\
    g_result (go cf ins b) = GOk /\
    g_events (go cf ins b) =
      [OOut (print_row p 0 (c_rowsep cf) (new_with_no_context (JArr (map build rows))))] /\
    (rows = [] -> g_events (go cf ins b) =
                  [OOut (print_row p 0 (c_rowsep cf) (new_with_no_context (JArr [])))]).
Proof.
  intros cf ins b p sts hdr Hgr Hign Hevs Hbp Hst Hov.
  destruct (program_collect_files cf None ins b p sts hdr Hgr Hign Hevs Hbp Hst Hov)
    as (pre & o & Ho & _ & _ & Hbpu & Hstu & H).
  cbn [group_key] in Ho. inversion Ho; subst o. exists pre. split; [exact Hbpu|]. split; [exact Hstu|].
  intros cs rows. cbv zeta in H. cbn [collection] in H. unfold merge_spec in H. destruct H as (H1 & H2 & H3 & H4).
  split; [exact H1|]. split; [exact H2|]. split; [exact H3|]. split; [exact H4|].
  intros Hr. rewrite H4. fold cs. fold rows. rewrite Hr. reflexivity.
Qed.

(* ====================================================================================================== *)
(* P1 with a collector after the limiter, any list of inputs: `go cf` against `go (no_group (no_limit cf))` *)
(* ====================================================================================================== *)
Theorem program_slice_collect_files : forall (cf : cfg) g (ins : list (option str * list ev)) (b : bool) p sts hdr,
  c_group cf = Some g ->
  c_on_error cf = OnIgnore -> Forall (fun i => Forall (fun e => e <> EErr) (snd i)) ins ->
  build_pipeline cf = Some (p, sts) ->
  start_output p (titles expr sts []) (c_rowsep cf) = Some hdr ->
  (forall t, c_take cf = Some t -> c_skip cf + t <= 18446744073709551615) ->
  exists pre00 o,
    group_key g = Some o /\ hdr = [] /\
    build_pipeline (no_group (no_limit cf)) = Some (p, pre00) /\
    start_output p (titles expr pre00 []) (c_rowsep (no_group (no_limit cf))) = Some [] /\
    let cs := fst (ctxs_of_inputs cf ins 0) in
    let rows00 := spec expr get pre00 cs in
    g_result (go (no_group (no_limit cf)) ins b) = GOk /\
    g_events (go (no_group (no_limit cf)) ins b) = emit cf p (length (titles expr pre00 [])) rows00 /\
    g_result (go cf ins b) = GOk /\
    g_events (go cf ins b) =
      [OOut (print_row p 0 (c_rowsep cf)
               (new_with_no_context (collection o (slice (c_skip cf) (c_take cf) rows00))))].
Proof.
  intros cf g ins b p sts hdr Hgr Hign Hevs Hbp Hst Hov.
  destruct (program_limit_files cf ins b p sts hdr Hign Hevs Hbp Hst Hov)
    as (pre0 & post & Hbp0 & Hst0 & Ht & Hg & H).
  assert (Hov0 : forall t, c_take (no_limit cf) = Some t ->
                           c_skip (no_limit cf) + t <= 18446744073709551615) by (intros t Ht0; discriminate Ht0).
  destruct (program_collect_files (no_limit cf) g ins b p (pre0 ++ post) hdr Hgr Hign Hevs Hbp0 Hst0 Hov0)
    as (pre' & o & Ho & Hsplit & Hh & Hbp00 & Hst00 & H').
  rewrite (build_group_key cf g Hgr), Ho in Hg. cbn [option_map] in Hg. inversion Hg; subst post.
  apply app_inj_tail in Hsplit. destruct Hsplit as [<- _].
  exists pre0, o. split; [exact Ho|]. split; [exact Hh|]. split; [exact Hbp00|]. split; [exact Hst00|].
  intros cs rows00. cbv zeta in H, H'. rewrite (ctxs_of_inputs_no_limit cf ins 0) in H'.
  destruct H as (_ & _ & _ & R & E). destruct H' as (R00 & E00 & _ & _).
  split; [exact R00|]. split; [exact E00|]. split; [exact R|].
  rewrite E, <- Ht, Hh. rewrite (titles_collector pre0 (collector_stage o) []) by (destruct o; exact I).
  rewrite spec_collector. reflexivity.
Qed.

Print Assumptions program_limit_files.
Print Assumptions program_slice_files.
Print Assumptions program_collect_files.
Print Assumptions program_group_by_files.
Print Assumptions program_merge_files.
Print Assumptions program_slice_collect_files.
