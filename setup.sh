#!/bin/bash
# Build the framework from files on disk only (offline): tables, Coq development (full .vo build),
# Rust harness against /repo, extracted OCaml model driver.
set -e
cd "$(dirname "$0")"
export CARGO_NET_OFFLINE=true
mkdir -p .build/tmp evidence
python3 extractor/gen_tables.py /repo/src coq/Gen
( cd coq && coq_makefile -f _CoqProject -o Makefile >/dev/null && timeout 3000 make -j16 2>&1 | tail -20 )
python3 - <<'PY'
import sys; sys.path.insert(0, 'vp')
import lib
ok, out = lib.build_harness()
print('harness', ok); 
if not ok: print(out); sys.exit(1)
ok, out = lib.build_model()
print('model', ok)
if not ok: print(out); sys.exit(1)
PY
