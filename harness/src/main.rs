// jawk-harness: runs jawk::go on JSON-line cases read from stdin, one JSON result per line.
// Case: {"id":..,"args":[..],"inputs":[{"name":?, "chunks":[hex..], "fail_at":?int, "interrupts":?int,
//        "endless":?hex, "budget":?int}], "files":bool, "out_room":?int, "err_room":?int}
use clap::Parser;
use serde_json::{json, Value};
use std::cell::RefCell;
use std::io::{BufRead, Read, Write};
use std::panic::{catch_unwind, AssertUnwindSafe};
use std::rc::Rc;
use std::sync::{Arc, Mutex};

fn unhex(s: &str) -> Vec<u8> {
    let b = s.as_bytes();
    let mut out = Vec::with_capacity(b.len() / 2);
    let v = |c: u8| -> u8 {
        match c {
            b'0'..=b'9' => c - b'0',
            b'a'..=b'f' => c - b'a' + 10,
            b'A'..=b'F' => c - b'A' + 10,
            _ => 0,
        }
    };
    let mut i = 0;
    while i + 1 < b.len() {
        out.push(v(b[i]) * 16 + v(b[i + 1]));
        i += 2;
    }
    out
}
fn hex(b: &[u8]) -> String {
    let mut s = String::with_capacity(b.len() * 2);
    for x in b {
        s.push_str(&format!("{:02x}", x));
    }
    s
}

struct Shared {
    pulled: u64,
    opened: u64,
    budget_hit: bool,
}

struct CaseReader {
    chunks: Vec<Vec<u8>>,
    chunk: usize,
    off: usize,
    delivered: u64,
    fail_at: Option<u64>,
    fail_kind: std::io::ErrorKind,
    // the failure is reported once; the reads after it see the end of the input (a reset connection, then EOF)
    fail_once: bool,
    failed: bool,
    interrupts: u64,
    endless: Option<Vec<u8>>,
    endless_off: usize,
    budget: u64,
    shared: Arc<Mutex<Shared>>,
}

impl Read for CaseReader {
    fn read(&mut self, buf: &mut [u8]) -> std::io::Result<usize> {
        if buf.is_empty() {
            return Ok(0);
        }
        if let Some(f) = self.fail_at {
            if self.delivered >= f {
                if self.interrupts > 0 {
                    self.interrupts -= 1;
                    return Err(std::io::Error::new(std::io::ErrorKind::Interrupted, "intr"));
                }
                if self.fail_once {
                    if self.failed {
                        return Ok(0);
                    }
                    self.failed = true;
                }
                return Err(std::io::Error::new(self.fail_kind, "injected read failure"));
            }
        }
        while self.chunk < self.chunks.len() && self.off >= self.chunks[self.chunk].len() {
            self.chunk += 1;
            self.off = 0;
        }
        let mut n;
        if self.chunk < self.chunks.len() {
            let c = &self.chunks[self.chunk];
            n = std::cmp::min(buf.len(), c.len() - self.off);
            if let Some(f) = self.fail_at {
                n = std::cmp::min(n as u64, f - self.delivered) as usize;
            }
            buf[..n].copy_from_slice(&c[self.off..self.off + n]);
            self.off += n;
        } else if let Some(e) = &self.endless {
            if self.delivered >= self.budget {
                self.shared.lock().unwrap().budget_hit = true;
                return Ok(0);
            }
            n = 0;
            while n < buf.len() && n < 4096 {
                buf[n] = e[self.endless_off];
                self.endless_off = (self.endless_off + 1) % e.len();
                n += 1;
            }
        } else {
            return Ok(0);
        }
        self.delivered += n as u64;
        self.shared.lock().unwrap().pulled += n as u64;
        Ok(n)
    }
}

struct RoomWriter {
    data: Arc<Mutex<Vec<u8>>>,
    room: Option<u64>,
    // a writer may accept fewer bytes than it is offered (pipes, terminals do): at most `chunk` bytes per call
    chunk: Option<u64>,
    // the kind of the error a full writer answers with
    kind: std::io::ErrorKind,
}
impl Write for RoomWriter {
    fn write(&mut self, buf: &[u8]) -> std::io::Result<usize> {
        let buf = match self.chunk {
            Some(c) if (buf.len() as u64) > c && c > 0 => &buf[..c as usize],
            _ => buf,
        };
        let mut d = self.data.lock().unwrap();
        match self.room {
            None => {
                d.extend_from_slice(buf);
                Ok(buf.len())
            }
            Some(r) => {
                let used = d.len() as u64;
                if used >= r {
                    if buf.is_empty() {
                        return Ok(0);
                    }
                    return Err(std::io::Error::new(self.kind, "injected write failure"));
                }
                let n = std::cmp::min(buf.len() as u64, r - used) as usize;
                d.extend_from_slice(&buf[..n]);
                Ok(n)
            }
        }
    }
    fn flush(&mut self) -> std::io::Result<()> {
        Ok(())
    }
}

fn write_kind(case: &Value) -> std::io::ErrorKind {
    match case["out_fail_kind"].as_str().unwrap_or("other") {
        "brokenpipe" => std::io::ErrorKind::BrokenPipe,
        "wouldblock" => std::io::ErrorKind::WouldBlock,
        "writezero" => std::io::ErrorKind::WriteZero,
        "storagefull" => std::io::ErrorKind::StorageFull,
        "connectionreset" => std::io::ErrorKind::ConnectionReset,
        _ => std::io::ErrorKind::Other,
    }
}

fn run_case(case: &Value, tmpdir: &str) -> Value {
    let id = case["id"].clone();
    let mut args: Vec<String> = vec!["jawk".to_string()];
    for a in case["args"].as_array().cloned().unwrap_or_default() {
        args.push(a.as_str().unwrap_or("").to_string());
    }
    let inputs = case["inputs"].as_array().cloned().unwrap_or_default();
    let use_files = case["files"].as_bool().unwrap_or(false);
    let shared = Arc::new(Mutex::new(Shared { pulled: 0, opened: 0, budget_hit: false }));
    let mut created: Vec<String> = vec![];
    // "dir": true — the files (and "links": [[name, target]...] as symbolic links) are created inside one directory and
    // the directory itself is the only FILE argument
    let use_dir = case["dir"].as_bool().unwrap_or(false);
    let mut created_dir: Option<String> = None;
    if use_files {
        args.push("--".to_string());
        let base = if use_dir {
            let d = format!("{}/d_{}", tmpdir, id.as_str().unwrap_or("x"));
            let _ = std::fs::remove_dir_all(&d);
            std::fs::create_dir_all(&d).unwrap();
            args.push(d.clone());
            created_dir = Some(d.clone());
            d
        } else {
            tmpdir.to_string()
        };
        for (i, inp) in inputs.iter().enumerate() {
            let name = inp["name"].as_str().map(|s| s.to_string()).unwrap_or(format!("f{}.json", i));
            let path = format!("{}/{}", base, name);
            let mut data = vec![];
            for c in inp["chunks"].as_array().cloned().unwrap_or_default() {
                data.extend(unhex(c.as_str().unwrap_or("")));
            }
            std::fs::write(&path, data).unwrap();
            if !use_dir {
                args.push(path.clone());
            }
            created.push(path);
        }
        for l in case["links"].as_array().cloned().unwrap_or_default() {
            let name = l[0].as_str().unwrap_or("link");
            let target = l[1].as_str().unwrap_or("/nonexistent");
            let path = format!("{}/{}", base, name);
            let _ = std::os::unix::fs::symlink(target, &path);
            if !use_dir {
                args.push(path.clone());
            }
            created.push(path);
        }
    }
    let out = Arc::new(Mutex::new(Vec::<u8>::new()));
    let err = Arc::new(Mutex::new(Vec::<u8>::new()));
    let stdout: Rc<RefCell<dyn Write + Send>> = Rc::new(RefCell::new(RoomWriter {
        data: out.clone(),
        room: case["out_room"].as_u64(),
        chunk: case["out_chunk"].as_u64(),
        kind: write_kind(case),
    }));
    let stderr: Rc<RefCell<dyn Write + Send>> = Rc::new(RefCell::new(RoomWriter {
        data: err.clone(),
        room: case["err_room"].as_u64(),
        chunk: case["out_chunk"].as_u64(),
        kind: write_kind(case),
    }));
    let inp0 = if use_files { None } else { inputs.get(0).cloned() };
    let sh = shared.clone();
    let factory = Box::new(move || {
        sh.lock().unwrap().opened += 1;
        let mut chunks = vec![];
        let mut fail_at = None;
        let mut fail_kind = std::io::ErrorKind::Other;
        let mut fail_once = false;
        let mut interrupts = 0;
        let mut endless = None;
        let mut budget = 1 << 20;
        if let Some(i) = &inp0 {
            for c in i["chunks"].as_array().cloned().unwrap_or_default() {
                chunks.push(unhex(c.as_str().unwrap_or("")));
            }
            fail_at = i["fail_at"].as_u64();
            fail_once = i["fail_once"].as_bool().unwrap_or(false);
            // every kind is a failed read (std::io::Bytes retries Interrupted only)
            fail_kind = match i["fail_kind"].as_str().unwrap_or("other") {
                "wouldblock" => std::io::ErrorKind::WouldBlock,
                "timedout" => std::io::ErrorKind::TimedOut,
                "brokenpipe" => std::io::ErrorKind::BrokenPipe,
                "unexpectedeof" => std::io::ErrorKind::UnexpectedEof,
                "connectionreset" => std::io::ErrorKind::ConnectionReset,
                "invaliddata" => std::io::ErrorKind::InvalidData,
                _ => std::io::ErrorKind::Other,
            };
            interrupts = i["interrupts"].as_u64().unwrap_or(0);
            endless = i["endless"].as_str().map(unhex).filter(|v| !v.is_empty());
            budget = i["budget"].as_u64().unwrap_or(1 << 20);
        }
        CaseReader {
            chunks,
            chunk: 0,
            off: 0,
            delivered: 0,
            fail_at,
            fail_kind,
            fail_once,
            failed: false,
            interrupts,
            endless,
            endless_off: 0,
            budget,
            shared: sh.clone(),
        }
    });
    let result = catch_unwind(AssertUnwindSafe(|| match jawk::Cli::try_parse_from(&args) {
        Err(e) => ("cli".to_string(), format!("{}", e.kind())),
        Ok(cli) => match jawk::go(cli, stdout.clone(), stderr.clone(), factory) {
            Ok(()) => ("ok".to_string(), String::new()),
            Err(e) => {
                let kind = match &e {
                    jawk::MainError::Json(j) => {
                        // the parser wraps read failures: JsonParserError::IoError
                        if format!("{:?}", j).starts_with("IoError") { "io" } else { "json" }
                    }
                    jawk::MainError::Format(_) => "format",
                    jawk::MainError::SelectionParse(_) => "selection",
                    jawk::MainError::SorterParse(_) => "sorter",
                    jawk::MainError::Io(_) => "io",
                    jawk::MainError::Processor(p) => {
                        // write failures surface as ProcessError::Io / ProcessError::Format
                        let d = format!("{:?}", p);
                        if d.starts_with("Io") || d.starts_with("Format") { "io" } else { "processor" }
                    }
                    jawk::MainError::PreSet(_) => "preset",
                    jawk::MainError::OutputStyle(_) => "style",
                };
                (format!("err:{}", kind), format!("{}", e))
            }
        },
    }));
    if let Some(d) = created_dir {
        let _ = std::fs::remove_dir_all(&d);
    }
    for p in created {
        let _ = std::fs::remove_file(p);
    }
    let (res, msg) = match result {
        Ok(r) => r,
        Err(p) => {
            let m = if let Some(s) = p.downcast_ref::<String>() {
                s.clone()
            } else if let Some(s) = p.downcast_ref::<&str>() {
                s.to_string()
            } else {
                "?".to_string()
            };
            ("panic".to_string(), m)
        }
    };
    let s = shared.lock().unwrap();
    let o = out.lock().unwrap();
    let e = err.lock().unwrap();
    json!({"id": id, "result": res, "msg": msg, "stdout": hex(&o), "stderr": hex(&e),
           "pulled": s.pulled, "stdin_opened": s.opened, "budget_hit": s.budget_hit})
}

fn main() {
    let argv: Vec<String> = std::env::args().collect();
    let tmpdir = argv.get(1).cloned().unwrap_or_else(|| ".".to_string());
    std::panic::set_hook(Box::new(|_| {}));
    let stdin = std::io::stdin();
    let stdout = std::io::stdout();
    let mut lock = stdout.lock();
    for line in stdin.lock().lines() {
        let line = match line {
            Ok(l) => l,
            Err(_) => break,
        };
        if line.trim().is_empty() {
            continue;
        }
        let case: Value = match serde_json::from_str(&line) {
            Ok(v) => v,
            Err(_) => continue,
        };
        let r = run_case(&case, &tmpdir);
        let _ = writeln!(lock, "{}", r);
        let _ = lock.flush();
    }
}
